//! Front-end differential entry points: call the real (private) logos-codegen functions through the
//! verif_hooks re-exports on inputs given in a spec file; one result line per input line.
use std::io::Write as _;
use std::panic::{catch_unwind, AssertUnwindSafe};

fn unhex(s: &str) -> Vec<u8> {
    if s == "-" {
        return vec![];
    }
    (0..s.len() / 2).map(|i| u8::from_str_radix(&s[2 * i..2 * i + 2], 16).unwrap()).collect()
}
fn text(s: &str) -> String {
    String::from_utf8(unhex(s)).unwrap()
}

pub fn main(args: &[String]) {
    let sub = args.first().map(|s| s.as_str()).unwrap_or("");
    let spec = std::fs::read_to_string(&args[1]).unwrap();
    let stdout = std::io::stdout();
    let mut w = std::io::BufWriter::new(stdout.lock());
    std::panic::set_hook(Box::new(|_| {}));
    for line in spec.lines() {
        let p: Vec<&str> = line.split(' ').collect();
        if p.is_empty() || p[0].is_empty() {
            continue;
        }
        let id = p[0];
        let r = catch_unwind(AssertUnwindSafe(|| -> String {
            match sub {
                // escape: id hex(literal token text) literal(0|1)
                "escape" => {
                    let ts: proc_macro2::TokenStream = text(p[1]).parse().unwrap();
                    match logos_codegen::verif::literal_escape(ts, p[2] == "1") {
                        Ok(s) => format!("ok {}", crate::hex(s.as_bytes())),
                        Err(e) => format!("err {}", crate::hex(e.as_bytes())),
                    }
                }
                // subst: id utf8(0|1) hex(pattern) { name hex(literal token text) }
                "subst" => {
                    let mut defs = Vec::new();
                    let mut i = 3;
                    while i + 1 < p.len() {
                        let ts: proc_macro2::TokenStream = text(p[i + 1]).parse().unwrap();
                        defs.push((p[i].to_string(), ts));
                        i += 2;
                    }
                    let (r, errs) = logos_codegen::verif::subst(&defs, p[1] == "1", &text(p[2]));
                    format!(
                        "{} {}",
                        match r { Some(s) => format!("some {}", crate::hex(s.as_bytes())), None => "none -".to_string() },
                        errs.len()
                    )
                }
                // byteclass: id hex(ranges a: lo hi lo hi ..) hex(ranges b)  ->  ranges | comparisons | count | table
                "byteclass" => {
                    let pairs = |h: &str| -> Vec<(u8, u8)> { unhex(h).chunks(2).map(|c| (c[0], c[1])).collect() };
                    let (rs, cmps, count, table) = logos_codegen::verif::byteclass_ops(&pairs(p[1]), &pairs(p[2]));
                    format!(
                        "{} | {} | {} | {}",
                        rs.iter().map(|(l, h)| format!("{l}-{h}")).collect::<Vec<_>>().join(","),
                        cmps.iter()
                            .map(|(l, h, ex)| format!("{l}-{h}:{}", ex.iter().map(|e| e.to_string()).collect::<Vec<_>>().join("+")))
                            .collect::<Vec<_>>()
                            .join(","),
                        count,
                        table.iter().map(|b| if *b { '1' } else { '0' }).collect::<String>()
                    )
                }
                // attr: id hex(attribute token text)
                "attr" => {
                    let ts: proc_macro2::TokenStream = text(p[1]).parse().unwrap();
                    let canon = logos_codegen::verif::tokens_canonical(ts.clone());
                    let items = logos_codegen::verif::attr_items(ts);
                    format!("{} {}", crate::hex(canon.as_bytes()), items.iter().map(|s| crate::hex(s.as_bytes())).collect::<Vec<_>>().join(" "))
                }
                // clicheck: id hex(path of input file) hex(path of cli output)
                "clicheck" => crate::clicheck::check(&text(p[1]), &text(p[2])),
                // pattern: id unicode icase hex(regex)
                "pattern" => match logos_codegen::verif::pattern_info(&text(p[3]), p[1] == "1", p[2] == "1") {
                    Ok((prio, greedy, hir)) => format!("ok {prio} {} {hir}", greedy as u8),
                    Err(e) => format!("err {}", crate::hex(e.as_bytes())),
                },
                _ => "unknown".to_string(),
            }
        }));
        match r {
            Ok(s) => writeln!(w, "{id} {s}").unwrap(),
            Err(_) => writeln!(w, "{id} PANIC").unwrap(),
        }
    }
}
